package hsim

// Deterministic, harness-scheduled network of real consensus engines (consensus.New) on real
// block managers and the real file WAL. Nothing is delivered implicitly: every message an engine
// sends goes to a pool; the schedule (deliveries, timeouts, block-manager completions, crashes,
// Byzantine messages) is drawn by rapid.

import (
	"bytes"
	"fmt"
	"io"
	"os"
	"path"
	"path/filepath"
	"sort"
	"strconv"
	"strings"
	"sync"
	"sync/atomic"
	"time"

	"github.com/icon-project/goloop/common/db"
	"github.com/icon-project/goloop/common/log"
	"github.com/icon-project/goloop/consensus"
	"github.com/icon-project/goloop/module"
	"github.com/icon-project/goloop/network"
	"github.com/icon-project/goloop/test"

	"verifharness/internal/gen"
)

// ---------------------------------------------------------------------------------------------
// clock

type simClock struct{ v int64 }

func (c *simClock) next() int64 { return atomic.AddInt64(&c.v, 10_000_000) }

type simTimestamper struct{ c *simClock }

func (t simTimestamper) GetVoteTimestamp(h, ts int64) int64  { return t.c.next() }
func (t simTimestamper) GetBlockTimestamp(h, ts int64) int64 { return ts }

// ---------------------------------------------------------------------------------------------
// messages in the pool

type simMsg struct {
	id     int
	from   int // sending node index
	pi     module.ProtocolInfo
	bs     []byte
	kind   string // proposal | part | vote | votelist
	h      int64
	r      int32
	vt     consensus.VoteType
	bid    string // block id (hex) for votes, "" for nil votes
	signer int    // validator index of signer, -1 unknown
	byz    bool   // crafted by the adversary
	dropped bool  // never left the node: the node crashed inside the handler before this send
}

func (m *simMsg) String() string {
	switch m.kind {
	case "vote":
		b := "nil"
		if m.bid != "" {
			b = m.bid[:6]
		}
		return fmt.Sprintf("#%d %s(h%d r%d %s by v%d)", m.id, m.vt, m.h, m.r, b, m.signer)
	case "proposal":
		return fmt.Sprintf("#%d proposal(h%d r%d by v%d)", m.id, m.h, m.r, m.signer)
	default:
		return fmt.Sprintf("#%d %s(h%d from n%d)", m.id, m.kind, m.h, m.from)
	}
}

// ---------------------------------------------------------------------------------------------
// chain / network / block manager / service manager wrappers

type simChain struct {
	*test.Chain
	nm *simNM
	bm *simBM
	sm *simSM
}

func (c *simChain) NetworkManager() module.NetworkManager { return c.nm }
func (c *simChain) BlockManager() module.BlockManager     { return c.bm }
func (c *simChain) ServiceManager() module.ServiceManager { return c.sm }

type simNM struct {
	module.NetworkManager
	node *simNode
}

func (n *simNM) GetPeers() []module.PeerID { return nil }
func (n *simNM) RegisterReactor(name string, pi module.ProtocolInfo, reactor module.Reactor, piList []module.ProtocolInfo, priority uint8, policy module.NotRegisteredProtocolPolicy) (module.ProtocolHandler, error) {
	if name == "consensus" {
		n.node.s.mu.Lock()
		n.node.reactor = reactor
		n.node.s.mu.Unlock()
	}
	return &simPH{node: n.node, name: name}, nil
}
func (n *simNM) RegisterReactorForStreams(name string, pi module.ProtocolInfo, reactor module.Reactor, piList []module.ProtocolInfo, priority uint8, policy module.NotRegisteredProtocolPolicy) (module.ProtocolHandler, error) {
	return &simPH{node: n.node, name: name}, nil
}
func (n *simNM) UnregisterReactor(reactor module.Reactor) error {
	n.node.s.mu.Lock()
	if n.node.reactor == reactor {
		n.node.reactor = nil
	}
	n.node.s.mu.Unlock()
	return nil
}
func (n *simNM) SetRole(version int64, role module.Role, peers ...module.PeerID) {}
func (n *simNM) GetPeersByRole(role module.Role) []module.PeerID                 { return nil }
func (n *simNM) AddRole(role module.Role, peers ...module.PeerID)                {}
func (n *simNM) RemoveRole(role module.Role, peers ...module.PeerID)             {}
func (n *simNM) HasRole(role module.Role, id module.PeerID) bool                 { return false }
func (n *simNM) Roles(id module.PeerID) []module.Role                            { return nil }

type simPH struct {
	node *simNode
	name string
}

func (p *simPH) Broadcast(pi module.ProtocolInfo, b []byte, bt module.BroadcastType) error {
	if p.name == "consensus" {
		p.node.s.onSend(p.node, pi, b)
	}
	return nil
}
func (p *simPH) Multicast(pi module.ProtocolInfo, b []byte, role module.Role) error {
	if p.name == "consensus" {
		p.node.s.onSend(p.node, pi, b)
	}
	return nil
}
func (p *simPH) Unicast(pi module.ProtocolInfo, b []byte, id module.PeerID) error { return nil }
func (p *simPH) GetPeers() []module.PeerID                                        { return nil }

type simReq struct {
	node      *simNode
	kind      string
	cb        func(module.BlockCandidate, error)
	inner     module.Canceler
	done      bool
	cancelled bool
	released  bool
	bc        module.BlockCandidate
	err       error
}

func (r *simReq) Cancel() bool {
	s := r.node.s
	s.mu.Lock()
	if r.released {
		s.mu.Unlock()
		return false
	}
	if r.done {
		// completed inside the block manager but not yet handed to the engine: behave as a
		// successful cancellation (the callback is never called)
		r.cancelled = true
		bc := r.bc
		s.mu.Unlock()
		if bc != nil {
			bc.Dispose()
		}
		return true
	}
	r.cancelled = true
	inner := r.inner
	s.mu.Unlock()
	if inner != nil {
		return inner.Cancel()
	}
	return true
}

func (r *simReq) complete(bc module.BlockCandidate, err error) {
	s := r.node.s
	s.mu.Lock()
	r.done, r.bc, r.err = true, bc, err
	s.mu.Unlock()
}

type simBM struct {
	module.BlockManager
	node *simNode
}

func (b *simBM) newReq(kind string, cb func(module.BlockCandidate, error)) *simReq {
	r := &simReq{node: b.node, kind: kind, cb: cb}
	b.node.s.mu.Lock()
	b.node.reqs = append(b.node.reqs, r)
	b.node.s.mu.Unlock()
	return r
}

func (b *simBM) dropReq(r *simReq) {
	b.node.s.mu.Lock()
	r.cancelled, r.done = true, true
	b.node.s.mu.Unlock()
}

func (b *simBM) Propose(parentID []byte, votes module.CommitVoteSet, cb func(module.BlockCandidate, error)) (module.Canceler, error) {
	r := b.newReq("propose", cb)
	c, err := b.BlockManager.Propose(parentID, votes, r.complete)
	if err != nil {
		b.dropReq(r)
		return nil, err
	}
	b.node.s.mu.Lock()
	r.inner = c
	b.node.s.mu.Unlock()
	return r, nil
}

func (b *simBM) ImportBlock(blk module.BlockData, flags int, cb func(module.BlockCandidate, error)) (module.Canceler, error) {
	r := b.newReq("import", cb)
	c, err := b.BlockManager.ImportBlock(blk, flags, r.complete)
	if err != nil {
		b.dropReq(r)
		return nil, err
	}
	b.node.s.mu.Lock()
	r.inner = c
	b.node.s.mu.Unlock()
	return r, nil
}

func (b *simBM) Finalize(bc module.BlockCandidate) error {
	b.node.s.onFinalize(b.node, bc.Height(), bc.ID())
	return b.BlockManager.Finalize(bc)
}

type simSM struct {
	module.ServiceManager
	node *simNode
}

func (m *simSM) SendDoubleSignReport(result []byte, vh []byte, data []module.DoubleSignData) error {
	m.node.s.onDoubleSignReport(m.node, data)
	return nil
}
func (m *simSM) SendPatch(patch module.Patch) error { return nil }

// ---------------------------------------------------------------------------------------------
// WAL manager wrapper: real file WAL; records the size of the tail file covered by the last Sync

type simWAL struct {
	node *simNode
}

type simWALWriter struct {
	consensus.WALWriter
	w  *simWAL
	id string
}

func walFiles(id string) []string {
	m, _ := filepath.Glob(id + "_*")
	sort.Slice(m, func(i, j int) bool {
		a, _ := strconv.ParseUint(m[i][len(id)+1:], 10, 64)
		b, _ := strconv.ParseUint(m[j][len(id)+1:], 10, 64)
		return a < b
	})
	return m
}

func (w *simWAL) OpenForRead(id string) (consensus.WALReader, error) {
	return consensus.OpenWALForRead(id)
}

func (w *simWAL) OpenForWrite(id string, cfg *consensus.WALConfig) (consensus.WALWriter, error) {
	c := *cfg
	c.HousekeepingInterval = 1000 * time.Hour // housekeeping (rotation, periodic sync) never runs by itself
	c.SyncInterval = 1000 * time.Hour
	ww, err := consensus.OpenWALForWrite(id, &c)
	if err != nil {
		return nil, err
	}
	sw := &simWALWriter{WALWriter: ww, w: w, id: id}
	sw.markSynced() // whatever is in the files when the log is opened is durable
	return sw, nil
}

func (sw *simWALWriter) markSynced() {
	fs := walFiles(sw.id)
	n := sw.w.node
	n.s.mu.Lock()
	defer n.s.mu.Unlock()
	if len(fs) == 0 {
		delete(n.synced, sw.id)
		return
	}
	tail := fs[len(fs)-1]
	st, err := os.Stat(tail)
	if err != nil {
		return
	}
	n.synced[sw.id] = simSynced{file: tail, size: st.Size()}
}

func (sw *simWALWriter) Sync() error {
	err := sw.WALWriter.Sync()
	if err == nil {
		sw.markSynced()
	}
	return err
}

type simSynced struct {
	file string
	size int64
}

// ---------------------------------------------------------------------------------------------
// nodes

type simNode struct {
	s       *sim
	idx     int
	w       module.Wallet
	byz     bool
	tn      *test.Node
	chain   *simChain
	cs      module.Consensus
	reactor module.Reactor
	walDir  string
	alive   bool
	reqs    []*simReq
	synced  map[string]simSynced // wal id -> durable size of tail file
	crashes int
	gen     int
	// WAL tail sizes at the start of the node's last event (snaps[0]) and at each of its sends
	// during that event (snaps[i], i>=1); used for crash points inside a handler
	snaps      []simSnap
	evFinals   int
	evDisabled bool
}

type simSnap struct {
	poolIdx int // index in pool of the message sent at this point (-1 for the event start)
	sizes   map[string]simSynced
}

func (n *simNode) walSnapshot() map[string]simSynced {
	out := map[string]simSynced{}
	for _, wid := range []string{"round", "lock", "commit"} {
		id := path.Join(n.walDir, wid)
		fs := walFiles(id)
		if len(fs) == 0 {
			continue
		}
		tail := fs[len(fs)-1]
		if st, err := os.Stat(tail); err == nil {
			out[id] = simSynced{file: tail, size: st.Size()}
		}
	}
	return out
}

// beginEvent is called before an event is handed to node j's engine.
func (s *sim) beginEvent(j int) {
	n := s.nodes[j]
	snap := simSnap{poolIdx: -1, sizes: n.walSnapshot()}
	s.mu.Lock()
	n.snaps = []simSnap{snap}
	n.evFinals = len(s.finals)
	n.evDisabled = false
	s.mu.Unlock()
}

type simFinal struct {
	node   int
	height int64
	id     string
}

type sim struct {
	txSeq int
	mu      sync.Mutex
	n, f    int
	nodes   []*simNode
	addrIdx map[string]int
	pool    []*simMsg
	deliv   map[[2]int]bool // (msg id, node) delivered at least once
	clock   *simClock
	nid     []byte

	finals []simFinal
	// votes index: "h/r/type/bid" -> signer set ; all votes ever put in the pool (incl. inside lists)
	votes map[string]map[int]bool
	// votes a correct node signed and kept in its own round WAL although the send was withdrawn by a
	// crash point inside the handler: same key -> signer set. Such a vote exists (the restarted
	// node replays it from its log) but only its signer can know it, so the certificate oracle
	// adds it only when the signer itself finalizes.
	walOnlyVotes map[string]map[int]bool
	// what correct validators signed: "v/type/h/r" -> signed bytes (hex)
	signed map[string]string
	// blocks seen in proposals: psid hash -> (psid, parts, block id)
	blocks map[string]*simBlock
	dsr    []string

	violations []string
	history    []string
	inconcl    string
	maxRound   int32
	locks      int
	tornCuts   int
	restartsAfterTorn int
	equivDelivered int
	insideCrashes  int
	walOnlyKept    int
}

type simBlock struct {
	h     int64
	psid  *consensus.PartSetID
	parts [][]byte
	bid   []byte
}

func (s *sim) logf(format string, args ...interface{}) {
	s.history = append(s.history, fmt.Sprintf(format, args...))
}

func (s *sim) violate(prop string, format string, args ...interface{}) {
	s.mu.Lock()
	s.violations = append(s.violations, prop+": "+fmt.Sprintf(format, args...))
	s.mu.Unlock()
}

var simLogOnce sync.Once

func simGenesis(wallets []module.Wallet) string {
	var vs []string
	for _, w := range wallets {
		vs = append(vs, fmt.Sprintf(`"%s"`, w.Address()))
	}
	return fmt.Sprintf(`{
		"accounts": [
			{"name": "treasury", "address": "hx1000000000000000000000000000000000000000", "balance": "0x0"},
			{"name": "god", "address": "hx0000000000000000000000000000000000000000", "balance": "0x0"}
		],
		"message": "", "nid": "0x1",
		"chain": {"validatorList": [ %s ]}
	}`, strings.Join(vs, ","))
}

type simT struct{ errs []string }

func (t *simT) Errorf(format string, args ...interface{}) {
	t.errs = append(t.errs, fmt.Sprintf(format, args...))
}
func (t *simT) Logf(format string, args ...any) {}

// newSim builds n validators of which those in byz are Byzantine (no engine; they own a block
// manager so that they can build valid blocks).
func newSim(n int, byz map[int]bool, keyBase int) (*sim, error) {
	s := &sim{
		n: n, f: len(byz), addrIdx: map[string]int{}, deliv: map[[2]int]bool{},
		clock: &simClock{v: 1_700_000_000_000_000},
		votes: map[string]map[int]bool{}, walOnlyVotes: map[string]map[int]bool{}, signed: map[string]string{}, blocks: map[string]*simBlock{},
	}
	wallets := make([]module.Wallet, n)
	for i := range wallets {
		wallets[i] = gen.WalletFromIndex(keyBase + i)
		s.addrIdx[string(wallets[i].Address().Bytes())] = i
	}
	gs := simGenesis(wallets)
	st := &simT{}
	for i := 0; i < n; i++ {
		node := &simNode{s: s, idx: i, w: wallets[i], byz: byz[i], synced: map[string]simSynced{}}
		s.nodes = append(s.nodes, node)
		cf := &test.FixtureConfig{
			NewCS: func(ctx *test.NodeContext) module.Consensus {
				ctx.C.Logger().SetLevel(log.PanicLevel)
				node.walDir = path.Join(ctx.Base, "wal")
				node.chain = &simChain{Chain: ctx.C}
				node.chain.nm = &simNM{node: node}
				node.chain.bm = &simBM{BlockManager: ctx.C.BlockManager(), node: node}
				node.chain.sm = &simSM{ServiceManager: ctx.C.ServiceManager(), node: node}
				return node.newEngine()
			},
		}
		node.tn = test.NewNode(st, test.UseGenesis(gs), test.UseWallet(wallets[i]),
			test.UseDB(db.NewMapDB()), test.UseConfig(cf))
		node.tn.Chain.Logger().SetLevel(log.PanicLevel)
		node.cs = node.tn.CS
		if len(st.errs) > 0 {
			return s, fmt.Errorf("node setup: %v", st.errs)
		}
	}
	return s, nil
}

func (n *simNode) newEngine() module.Consensus {
	n.gen++
	return consensus.New(n.chain, n.walDir, &simWAL{node: n}, simTimestamper{n.s.clock}, nil, nil, 1000*time.Hour)
}

func (s *sim) start() error {
	for _, n := range s.nodes {
		if n.byz {
			continue
		}
		if err := n.cs.Start(); err != nil {
			return err
		}
		n.alive = true
	}
	return s.settle()
}

func (s *sim) close() {
	for _, n := range s.nodes {
		func() {
			defer func() { _ = recover() }()
			// drop parked candidates
			s.mu.Lock()
			reqs := n.reqs
			n.reqs = nil
			s.mu.Unlock()
			for _, r := range reqs {
				r.Cancel()
			}
			if !n.alive && !n.byz {
				// engine already terminated by crash(); Node.Close would Term it again
				n.tn.CS = simNopCS{}
			}
			if n.byz {
				n.tn.CS = simNopCS{}
			}
			n.tn.Close()
		}()
	}
}

type simNopCS struct{ module.Consensus }

func (simNopCS) Term() {}

// ---------------------------------------------------------------------------------------------
// bookkeeping of sends, finalizations, reports

func (s *sim) validatorIndex(a module.Address) int {
	if a == nil {
		return -1
	}
	if i, ok := s.addrIdx[string(a.Bytes())]; ok {
		return i
	}
	return -1
}

func simVoteKey(h int64, r int32, vt consensus.VoteType, bid string) string {
	return fmt.Sprintf("%d/%d/%d/%s", h, r, vt, bid)
}

// recordVote indexes a vote that exists in the pool (called with s.mu held).
func (s *sim) recordVote(v *consensus.VoteMessage, viaNode int) (signer int, bid string) {
	a, sb := consensus.VerifSimVoteInfo(v)
	signer = s.validatorIndex(a)
	if v.BlockPartSetIDAndNTSVoteCount != nil {
		bid = fmt.Sprintf("%x", v.BlockID)
	}
	if signer < 0 {
		return
	}
	k := simVoteKey(v.Height, v.Round, v.Type, bid)
	if s.votes[k] == nil {
		s.votes[k] = map[int]bool{}
	}
	s.votes[k][signer] = true
	if !s.nodes[signer].byz {
		sk := fmt.Sprintf("v%d/%d/%d/%d", signer, v.Type, v.Height, v.Round)
		hx := fmt.Sprintf("%x", sb)
		if old, ok := s.signed[sk]; ok && old != hx {
			s.violations = append(s.violations, fmt.Sprintf(
				"C02: correct validator %d signed two different %s votes for height %d round %d: %s vs %s (second seen via node %d)",
				signer, v.Type, v.Height, v.Round, old, hx, viaNode))
		} else {
			s.signed[sk] = hx
		}
	}
	return
}

// syncedWALContains reports whether the durable part of node n's round WAL contains rec.
func (n *simNode) syncedWALContains(rec []byte) bool {
	id := path.Join(n.walDir, "round")
	sy, ok := n.synced[id]
	if !ok {
		return false
	}
	for _, f := range walFiles(id) {
		b, err := os.ReadFile(f)
		if err != nil {
			continue
		}
		if f == sy.file {
			if int64(len(b)) > sy.size {
				b = b[:sy.size]
			}
		} else if walIdx(f, id) > walIdx(sy.file, id) {
			continue
		}
		if bytes.Contains(b, rec) {
			return true
		}
	}
	return false
}

// walContains reports whether node n's round WAL files, as they are on disk now, contain rec.
func (n *simNode) walContains(rec []byte) bool {
	for _, f := range walFiles(path.Join(n.walDir, "round")) {
		if b, err := os.ReadFile(f); err == nil && bytes.Contains(b, rec) {
			return true
		}
	}
	return false
}

func walIdx(f, id string) uint64 {
	v, _ := strconv.ParseUint(f[len(id)+1:], 10, 64)
	return v
}

func (s *sim) onSend(n *simNode, pi module.ProtocolInfo, bs []byte) {
	sizes := n.walSnapshot()
	s.mu.Lock()
	defer s.mu.Unlock()
	if m := s.addToPool(n.idx, pi, bs, false); m != nil {
		n.snaps = append(n.snaps, simSnap{poolIdx: m.id, sizes: sizes})
	}
}

// addToPool parses and indexes a message (s.mu held). Returns the pool entry (nil if unparsable).
func (s *sim) addToPool(from int, pi module.ProtocolInfo, bs []byte, byz bool) *simMsg {
	msg, err := consensus.UnmarshalMessage(pi.Uint16(), bs)
	if err != nil {
		if !byz {
			s.violations = append(s.violations, fmt.Sprintf("HARNESS: node %d sent an unparsable message: %v", from, err))
		}
		return nil
	}
	m := &simMsg{id: len(s.pool), from: from, pi: pi, bs: append([]byte{}, bs...), signer: -1, byz: byz}
	n := s.nodes[from]
	switch mm := msg.(type) {
	case *consensus.ProposalMessage:
		m.kind, m.h, m.r = "proposal", mm.Height, mm.Round
		a, sb := consensus.VerifSimProposalInfo(mm)
		m.signer = s.validatorIndex(a)
		if mm.BlockPartSetID != nil {
			m.bid = fmt.Sprintf("%x", mm.BlockPartSetID.Hash)
			if s.blocks[m.bid] == nil {
				s.blocks[m.bid] = &simBlock{h: mm.Height, psid: mm.BlockPartSetID, parts: make([][]byte, mm.BlockPartSetID.Count)}
			}
		}
		if m.signer >= 0 && !s.nodes[m.signer].byz {
			sk := fmt.Sprintf("p%d/%d/%d", m.signer, mm.Height, mm.Round)
			hx := fmt.Sprintf("%x", sb)
			if old, ok := s.signed[sk]; ok && old != hx {
				s.violations = append(s.violations, fmt.Sprintf(
					"C02: correct validator %d signed two different proposals for height %d round %d: %s vs %s", m.signer, mm.Height, mm.Round, old, hx))
			} else {
				s.signed[sk] = hx
			}
		}
		if !byz && !n.byz {
			rec := append([]byte{byte(pi.Uint16() >> 8), byte(pi.Uint16())}, bs...)
			if !n.syncedWALContains(rec) {
				s.violations = append(s.violations, fmt.Sprintf(
					"C02: node %d broadcast proposal h%d r%d before it was durable in its round WAL", from, mm.Height, mm.Round))
			}
		}
	case *consensus.BlockPartMessage:
		m.kind, m.h = "part", mm.Height
		if p, err := consensus.NewPart(mm.BlockPart); err == nil {
			_ = p
		}
	case *consensus.VoteMessage:
		m.kind, m.h, m.r, m.vt = "vote", mm.Height, mm.Round, mm.Type
		m.signer, m.bid = s.recordVote(mm, from)
		if !byz && !n.byz {
			if m.signer != from {
				s.violations = append(s.violations, fmt.Sprintf("HARNESS: node %d broadcast a vote signed by %d", from, m.signer))
			}
			rec := append([]byte{byte(pi.Uint16() >> 8), byte(pi.Uint16())}, bs...)
			if !n.syncedWALContains(rec) {
				s.violations = append(s.violations, fmt.Sprintf(
					"C02: node %d broadcast %s h%d r%d before it was durable in its round WAL", from, mm.Type, mm.Height, mm.Round))
			}
		}
	case *consensus.VoteListMessage:
		m.kind = "votelist"
		if mm.VoteList != nil {
			for i := 0; i < mm.VoteList.Len(); i++ {
				v := mm.VoteList.Get(i)
				m.h, m.r, m.vt = v.Height, v.Round, v.Type
				s.recordVote(v, from)
			}
		}
	default:
		return nil
	}
	if m.r > s.maxRound && !byz {
		s.maxRound = m.r
	}
	s.pool = append(s.pool, m)
	return m
}

func (s *sim) onFinalize(n *simNode, h int64, id []byte) {
	s.mu.Lock()
	defer s.mu.Unlock()
	hx := fmt.Sprintf("%x", id)
	s.finals = append(s.finals, simFinal{n.idx, h, hx})
	s.history = append(s.history, fmt.Sprintf("  -> node %d FINALIZED h%d %s", n.idx, h, hx[:6]))
	// C01-a agreement
	for _, f := range s.finals {
		if f.height == h && f.id != hx && !s.nodes[f.node].byz {
			s.violations = append(s.violations, fmt.Sprintf(
				"C01: node %d finalized %s at height %d but node %d finalized %s", n.idx, hx, h, f.node, f.id))
			break
		}
	}
	// C01-b certificate: > 2n/3 distinct validators precommitted exactly this block in one round
	best := 0
	pre := fmt.Sprintf("%d/", h)
	suf := fmt.Sprintf("/%d/%s", consensus.VoteTypePrecommit, hx)
	count := func(k string) {
		if strings.HasPrefix(k, pre) && strings.HasSuffix(k, suf) {
			c := len(s.votes[k])
			if s.walOnlyVotes[k][n.idx] && !s.votes[k][n.idx] {
				c++ // the finalizing node's own precommit, durable in its log but never sent
			}
			if c > best {
				best = c
			}
		}
	}
	for k := range s.votes {
		count(k)
	}
	for k := range s.walOnlyVotes {
		count(k)
	}
	if 3*best <= 2*s.n {
		s.violations = append(s.violations, fmt.Sprintf(
			"C01: node %d finalized %s at height %d but at most %d of %d validators precommitted it in one round", n.idx, hx, h, best, s.n))
	}
}

func (s *sim) onDoubleSignReport(n *simNode, data []module.DoubleSignData) {
	s.mu.Lock()
	defer s.mu.Unlock()
	for _, d := range data {
		idx := -1
		for i, nn := range s.nodes {
			if bytes.Equal(nn.w.Address().ID(), d.Signer()) || bytes.Equal(nn.w.Address().Bytes(), d.Signer()) {
				idx = i
			}
		}
		s.dsr = append(s.dsr, fmt.Sprintf("node %d reports %s h%d signer v%d", n.idx, d.Type(), d.Height(), idx))
		if idx >= 0 && !s.nodes[idx].byz {
			s.violations = append(s.violations, fmt.Sprintf(
				"C02: node %d produced double-sign evidence (%s, height %d) against correct validator %d", n.idx, d.Type(), d.Height(), idx))
		}
	}
	if len(data) == 2 && !data[0].IsConflictWith(data[1]) {
		s.violations = append(s.violations, "C06: double-sign report with a non-conflicting pair")
	}
}

// ---------------------------------------------------------------------------------------------
// schedule primitives

type simState = consensus.VerifSimState

func (n *simNode) state() simState { return consensus.VerifSimGetState(n.cs) }

// settle waits until every block-manager request has completed (parked), freezes timers.
func (s *sim) settle() error {
	deadline := time.Now().Add(20 * time.Second)
	for {
		busy := false
		s.mu.Lock()
		for _, n := range s.nodes {
			for _, r := range n.reqs {
				if !r.done && !r.cancelled {
					busy = true
				}
			}
		}
		s.mu.Unlock()
		if !busy {
			break
		}
		if time.Now().After(deadline) {
			s.inconcl = "block manager request did not complete in 20s"
			return fmt.Errorf(s.inconcl)
		}
		time.Sleep(50 * time.Microsecond)
	}
	for _, n := range s.nodes {
		if n.alive {
			consensus.VerifSimFreezeTimer(n.cs)
		}
	}
	return nil
}

// parked returns the completed, not yet released requests of node j.
func (s *sim) parked(j int) []*simReq {
	s.mu.Lock()
	defer s.mu.Unlock()
	n := s.nodes[j]
	var out, keep []*simReq
	for _, r := range n.reqs {
		if r.cancelled || r.released {
			continue
		}
		keep = append(keep, r)
		if r.done {
			out = append(out, r)
		}
	}
	n.reqs = keep
	return out
}

// release hands the k-th parked block-manager completion of node j to the engine.
func (s *sim) release(j, k int) error {
	p := s.parked(j)
	if k >= len(p) {
		return nil
	}
	r := p[k]
	s.mu.Lock()
	if r.cancelled || r.released {
		s.mu.Unlock()
		return nil
	}
	r.released = true
	s.mu.Unlock()
	s.logf("bmDone(n%d,%s)", j, r.kind)
	s.beginEvent(j)
	if !s.nodes[j].alive {
		if r.bc != nil {
			r.bc.Dispose()
		}
		return nil
	}
	r.cb(r.bc, r.err)
	return s.settle()
}

func (s *sim) drainBM(j int) error {
	for i := 0; i < 50; i++ {
		p := s.parked(j)
		if len(p) == 0 {
			return nil
		}
		if err := s.release(j, 0); err != nil {
			return err
		}
	}
	return nil
}

func (s *sim) drainAllBM() error {
	for _, n := range s.nodes {
		if n.alive {
			if err := s.drainBM(n.idx); err != nil {
				return err
			}
		}
	}
	return nil
}

func (s *sim) deliver(mid, j int) error {
	n := s.nodes[j]
	if !n.alive {
		return nil
	}
	s.mu.Lock()
	m := s.pool[mid]
	r := n.reactor
	if m.dropped {
		s.mu.Unlock()
		return nil
	}
	first := !s.deliv[[2]int{mid, j}]
	s.deliv[[2]int{mid, j}] = true
	if first && m.byz {
		s.equivDelivered++
	}
	s.mu.Unlock()
	if r == nil {
		return nil
	}
	s.logf("deliver(%s -> n%d)", m, j)
	s.beginEvent(j)
	_, _ = r.OnReceive(m.pi, m.bs, network.NewPeerIDFromAddress(s.nodes[m.from].w.Address()))
	return s.settle()
}

// submitTx puts a fresh (harmless, unique) transaction into node j's pool - also while its engine is
// down: the pool belongs to the service, not to the consensus engine. A proposer whose pool changed builds
// a different block than before, so a node that proposes twice for one (height, round) is seen to equivocate.
func (s *sim) submitTx(j int) error {
	n := s.nodes[j]
	s.txSeq++
	tag := fmt.Sprintf("tx-%d", s.txSeq)
	s.logf("submitTx(n%d %s)", j, tag)
	if n.alive {
		s.beginEvent(j)
	}
	if _, err := n.tn.SM.SendTransaction(nil, 0, test.NewTx().SetVarTest(&tag).String()); err != nil {
		s.inconcl = fmt.Sprintf("cannot submit a transaction: %v", err)
		return fmt.Errorf(s.inconcl)
	}
	return s.settle()
}

func (s *sim) timeout(j int) error {
	n := s.nodes[j]
	if !n.alive {
		return nil
	}
	before := n.state()
	if !before.HasTimer {
		return nil
	}
	s.beginEvent(j)
	if !consensus.VerifSimFireTimer(n.cs) {
		return nil
	}
	s.logf("timeout(n%d at h%d r%d step%d)", j, before.Height, before.Round, before.Step)
	deadline := time.Now().Add(10 * time.Second)
	for {
		st := n.state()
		if st.Height != before.Height || st.Round != before.Round || st.Step != before.Step {
			break
		}
		if time.Now().After(deadline) {
			s.inconcl = "timer closure did not run in 10s"
			return fmt.Errorf(s.inconcl)
		}
		time.Sleep(50 * time.Microsecond)
	}
	return s.settle()
}

// crash terminates the engine of node j and truncates every WAL tail file to a cut in
// [durable size, current size]; pick(lo, hi, frames) chooses the cut.
func (s *sim) crash(j int, pick func(wal string, lo, hi int64, bounds []int64) int64) {
	n := s.nodes[j]
	if !n.alive {
		return
	}
	n.cs.Term()
	n.alive = false
	n.crashes++
	s.mu.Lock()
	reqs := n.reqs
	n.reqs = nil
	s.mu.Unlock()
	for _, r := range reqs {
		r.Cancel()
	}
	desc := []string{}
	for _, wid := range []string{"round", "lock", "commit"} {
		id := path.Join(n.walDir, wid)
		fs := walFiles(id)
		if len(fs) == 0 {
			continue
		}
		tail := fs[len(fs)-1]
		st, err := os.Stat(tail)
		if err != nil {
			continue
		}
		s.mu.Lock()
		sy, ok := n.synced[id]
		s.mu.Unlock()
		if !ok || sy.file != tail || sy.size >= st.Size() {
			continue
		}
		data, _ := os.ReadFile(tail)
		// frame boundaries of the unsynced region
		var bounds []int64
		off := sy.size
		for off+8 <= int64(len(data)) {
			l := int64(uint32(data[off+4])<<24 | uint32(data[off+5])<<16 | uint32(data[off+6])<<8 | uint32(data[off+7]))
			bounds = append(bounds, off)
			off += 8 + l
		}
		bounds = append(bounds, st.Size())
		cut := pick(wid, sy.size, st.Size(), bounds)
		if cut < sy.size {
			cut = sy.size
		}
		if cut > st.Size() {
			cut = st.Size()
		}
		if cut < st.Size() {
			_ = os.Truncate(tail, cut)
			onBoundary := false
			for _, b := range bounds {
				if b == cut {
					onBoundary = true
				}
			}
			if !onBoundary {
				s.tornCuts++
			}
			desc = append(desc, fmt.Sprintf("%s:%d/%d..%d%s", wid, cut, sy.size, st.Size(), map[bool]string{true: "", false: "(torn)"}[onBoundary]))
		}
	}
	s.logf("crash(n%d %s)", j, strings.Join(desc, " "))
}

// crashInside emulates a crash of node j inside its last event handler, right after the k-th send
// of that handler (k=0: before the first send): later sends of the handler never happened (they
// are withdrawn from the pool; only legal while nobody received them and the handler finalized
// nothing), and each WAL keeps a drawn prefix cut in [size at send k, size at send k+1].
// Returns false if the last event of j cannot be rolled back (then nothing is done).
func (s *sim) crashInside(j int, pickK func(sends int) int, pick func(wal string, lo, hi int64, bounds []int64) int64) bool {
	n := s.nodes[j]
	if !n.alive {
		return false
	}
	s.mu.Lock()
	snaps := n.snaps
	ok := len(snaps) >= 2 && !n.evDisabled && n.evFinals == len(s.finals)
	if ok {
		for _, sn := range snaps[1:] {
			for t := range s.nodes {
				if s.deliv[[2]int{sn.poolIdx, t}] {
					ok = false
				}
			}
		}
	}
	s.mu.Unlock()
	if !ok {
		return false
	}
	k := pickK(len(snaps) - 1) // 0..sends-1 : number of sends that did happen
	if k < 0 || k >= len(snaps)-1 {
		return false
	}
	n.cs.Term()
	n.alive = false
	n.crashes++
	s.mu.Lock()
	reqs := n.reqs
	n.reqs = nil
	for _, sn := range snaps[k+1:] {
		s.pool[sn.poolIdx].dropped = true
	}
	s.reindex()
	n.snaps = nil
	s.mu.Unlock()
	for _, r := range reqs {
		r.Cancel()
	}
	desc := []string{}
	lo, hi := snaps[k].sizes, snaps[k+1].sizes
	for _, wid := range []string{"round", "lock", "commit"} {
		id := path.Join(n.walDir, wid)
		h, okh := hi[id]
		if !okh {
			continue
		}
		l, okl := lo[id]
		if !okl || l.file != h.file {
			l = simSynced{file: h.file, size: 0}
		}
		data, err := os.ReadFile(h.file)
		if err != nil {
			continue
		}
		var bounds []int64
		off := l.size
		for off+8 <= h.size && off+8 <= int64(len(data)) {
			ln := int64(uint32(data[off+4])<<24 | uint32(data[off+5])<<16 | uint32(data[off+6])<<8 | uint32(data[off+7]))
			bounds = append(bounds, off)
			off += 8 + ln
		}
		bounds = append(bounds, h.size)
		cut := pick(wid, l.size, h.size, bounds)
		if cut < l.size {
			cut = l.size
		}
		if cut > h.size {
			cut = h.size
		}
		if cut < int64(len(data)) {
			_ = os.Truncate(h.file, cut)
		}
		onBoundary := false
		for _, b := range bounds {
			if b == cut {
				onBoundary = true
			}
		}
		if !onBoundary {
			s.tornCuts++
		}
		if l.size != h.size || cut < int64(len(data)) {
			desc = append(desc, fmt.Sprintf("%s:%d/%d..%d%s", wid, cut, l.size, h.size, map[bool]string{true: "", false: "(torn)"}[onBoundary]))
		}
	}
	// withdrawn votes whose record survived the cut still exist in this node's log
	kept := 0
	s.mu.Lock()
	for _, sn := range snaps[k+1:] {
		m := s.pool[sn.poolIdx]
		if m.kind != "vote" || m.byz || m.signer != j {
			continue
		}
		rec := append([]byte{byte(m.pi.Uint16() >> 8), byte(m.pi.Uint16())}, m.bs...)
		if n.walContains(rec) {
			vk := simVoteKey(m.h, m.r, m.vt, m.bid)
			if s.walOnlyVotes[vk] == nil {
				s.walOnlyVotes[vk] = map[int]bool{}
			}
			s.walOnlyVotes[vk][j] = true
			kept++
		}
	}
	s.mu.Unlock()
	if kept > 0 {
		s.walOnlyKept += kept
		desc = append(desc, fmt.Sprintf("unsentVotesKeptInWAL:%d", kept))
	}
	s.insideCrashes++
	s.logf("crashInside(n%d after send %d of %d; %s)", j, k, len(snaps)-1, strings.Join(desc, " "))
	return true
}

// reindex rebuilds the vote / signature indices from the messages that really left their nodes
// (s.mu held).
func (s *sim) reindex() {
	s.votes = map[string]map[int]bool{}
	s.signed = map[string]string{}
	keep := s.violations
	for _, m := range s.pool {
		if m.dropped {
			continue
		}
		msg, err := consensus.UnmarshalMessage(m.pi.Uint16(), m.bs)
		if err != nil {
			continue
		}
		switch mm := msg.(type) {
		case *consensus.ProposalMessage:
			a, sb := consensus.VerifSimProposalInfo(mm)
			if i := s.validatorIndex(a); i >= 0 && !s.nodes[i].byz {
				s.signed[fmt.Sprintf("p%d/%d/%d", i, mm.Height, mm.Round)] = fmt.Sprintf("%x", sb)
			}
		case *consensus.VoteMessage:
			s.recordVote(mm, m.from)
		case *consensus.VoteListMessage:
			if mm.VoteList != nil {
				for i := 0; i < mm.VoteList.Len(); i++ {
					s.recordVote(mm.VoteList.Get(i), m.from)
				}
			}
		}
	}
	s.violations = keep
}

func (s *sim) restart(j int) error {
	n := s.nodes[j]
	if n.alive || n.byz {
		return nil
	}
	n.cs = n.newEngine()
	n.tn.CS = n.cs
	s.logf("restart(n%d)", j)
	if err := n.cs.Start(); err != nil {
		s.violate("C02", "node %d cannot restart from its logs after crash: %v", j, err)
		return nil
	}
	n.alive = true
	// the restarted engine remembers only what its logs hold: the network may deliver everything again
	s.mu.Lock()
	for k := range s.deliv {
		if k[1] == j {
			delete(s.deliv, k)
		}
	}
	s.mu.Unlock()
	return s.settle()
}

// learnParts: remember block parts seen in the pool so the adversary can replay / re-propose them
func (s *sim) blockOfProposal(m *simMsg) *simBlock {
	return s.blocks[m.bid]
}

// ---------------------------------------------------------------------------------------------
// adversary helpers

func (s *sim) byzSend(from int, msg consensus.Message) *simMsg {
	pi, bs := consensus.VerifSimMarshal(msg)
	s.mu.Lock()
	defer s.mu.Unlock()
	return s.addToPool(from, pi, bs, true)
}

// undelivered returns pool ids (in order) not yet delivered to node j that satisfy keep.
func (s *sim) undelivered(j int, keep func(*simMsg) bool) []int {
	s.mu.Lock()
	defer s.mu.Unlock()
	var out []int
	for _, m := range s.pool {
		if m.dropped || (m.from == j && !m.byz) {
			continue
		}
		if s.deliv[[2]int{m.id, j}] {
			continue
		}
		if keep == nil || keep(m) {
			out = append(out, m.id)
		}
	}
	return out
}

func (s *sim) poolLen() int {
	s.mu.Lock()
	defer s.mu.Unlock()
	return len(s.pool)
}

func (s *sim) correct() []int {
	var out []int
	for _, n := range s.nodes {
		if !n.byz {
			out = append(out, n.idx)
		}
	}
	return out
}

func (s *sim) byzantine() []int {
	var out []int
	for _, n := range s.nodes {
		if n.byz {
			out = append(out, n.idx)
		}
	}
	return out
}

func (s *sim) proposerOf(h int64, r int32) int { return int((h + int64(r)) % int64(s.n)) }

// flushTo delivers every undelivered message (matching keep) to node j, releasing block manager
// completions as they appear.
func (s *sim) flushTo(j int, keep func(*simMsg) bool) error {
	for iter := 0; iter < 8; iter++ {
		ids := s.undelivered(j, keep)
		if len(ids) == 0 {
			return nil
		}
		for _, id := range ids {
			if err := s.deliver(id, j); err != nil {
				return err
			}
			if err := s.drainBM(j); err != nil {
				return err
			}
		}
	}
	return nil
}

// buildBlock lets Byzantine node b build a valid block on top of its last block with the given
// commit votes; returns the part set.
func (s *sim) byzBuildBlock(b int, votes module.CommitVoteSet) (consensus.PartSet, module.BlockCandidate, error) {
	n := s.nodes[b]
	last, err := n.tn.BM.GetLastBlock()
	if err != nil {
		return nil, nil, err
	}
	type res struct {
		bc  module.BlockCandidate
		err error
	}
	ch := make(chan res, 1)
	_, err = n.tn.BM.Propose(last.ID(), votes, func(bc module.BlockCandidate, err error) { ch <- res{bc, err} })
	if err != nil {
		return nil, nil, err
	}
	select {
	case r := <-ch:
		if r.err != nil {
			return nil, nil, r.err
		}
		psb := consensus.NewPartSetBuffer(consensus.ConfigBlockPartSize)
		if err := r.bc.MarshalHeader(psb); err != nil {
			return nil, nil, err
		}
		if err := r.bc.MarshalBody(psb); err != nil {
			return nil, nil, err
		}
		return psb.PartSet(), r.bc, nil
	case <-time.After(20 * time.Second):
		return nil, nil, fmt.Errorf("byz propose timed out")
	}
}

var _ = io.EOF
