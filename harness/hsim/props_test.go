package hsim

import (
	"crypto/sha256"
	"fmt"
	"os"
	"sort"
	"strings"
	"testing"

	"github.com/icon-project/goloop/common/log"
	"github.com/icon-project/goloop/consensus"
	"github.com/icon-project/goloop/consensus/fastsync"
	"github.com/icon-project/goloop/module"
	"pgregory.net/rapid"

	"verifharness/internal/ev"
)

func init() {
	// goloop's test fixture creates trace-level loggers writing to os.Stderr (captured when the
	// logger is created): silence them. Runtime panics still go to file descriptor 2.
	if f, err := os.OpenFile(os.DevNull, os.O_WRONLY, 0); err == nil {
		os.Stderr = f
	}
	log.GlobalLogger().SetLevel(log.PanicLevel)
}

// decision = something a vote can be cast for
type simDecision struct {
	bid     []byte
	psid    *consensus.PartSetID
	appData uint64
}

type simRun struct {
	s      *sim
	rt     *rapid.T
	mode   string // C01 | C02
	counts map[string]int
	// decisions harvested from votes of correct nodes and from Byzantine-built blocks, per height
	decisions map[int64][]simDecision
	harvested int
	tornNodes map[int]bool
	byzHeight map[int]int64 // last height finalized on the Byzantine node's own block manager
	byzParts  map[string]consensus.PartSet
}

func (r *simRun) harvest() {
	s := r.s
	s.mu.Lock()
	defer s.mu.Unlock()
	for ; r.harvested < len(s.pool); r.harvested++ {
		m := s.pool[r.harvested]
		if m.kind != "vote" || m.bid == "" || m.dropped {
			continue
		}
		msg, err := consensus.UnmarshalMessage(m.pi.Uint16(), m.bs)
		if err != nil {
			continue
		}
		v := msg.(*consensus.VoteMessage)
		found := false
		for _, d := range r.decisions[v.Height] {
			if string(d.bid) == string(v.BlockID) {
				found = true
			}
		}
		if !found {
			r.decisions[v.Height] = append(r.decisions[v.Height], simDecision{
				bid: v.BlockID, psid: v.BlockPartSetIDAndNTSVoteCount.ID(), appData: v.BlockPartSetIDAndNTSVoteCount.AppData()})
		}
		if r.tornNodes[m.from] && !m.byz {
			delete(r.tornNodes, m.from)
			s.restartsAfterTorn++
		}
	}
}

func (r *simRun) liveCorrect() []int {
	var out []int
	for _, n := range r.s.nodes {
		if !n.byz && n.alive {
			out = append(out, n.idx)
		}
	}
	return out
}

func (r *simRun) deadCorrect() []int {
	var out []int
	for _, n := range r.s.nodes {
		if !n.byz && !n.alive {
			out = append(out, n.idx)
		}
	}
	return out
}

func (r *simRun) pickNode(label string, from []int) int {
	return from[rapid.IntRange(0, len(from)-1).Draw(r.rt, label)]
}

// byzVote: the adversary signs a vote for a drawn target
func (r *simRun) byzVote(b int, h int64, round int32, vt consensus.VoteType, d *simDecision) *simMsg {
	s := r.s
	var v *consensus.VoteMessage
	ts := s.clock.next()
	if d == nil {
		v = consensus.VerifSimNewVote(s.nodes[b].w, vt, h, round, []byte{0x01}, nil, 0, ts) // nid bytes of NID 1
	} else {
		v = consensus.VerifSimNewVote(s.nodes[b].w, vt, h, round, d.bid, d.psid, d.appData, ts)
	}
	return s.byzSend(b, v)
}

func (r *simRun) drawDecision(h int64, label string) *simDecision {
	ds := r.decisions[h]
	k := rapid.IntRange(-1, len(ds)).Draw(r.rt, label)
	if k < 0 {
		return nil
	}
	if k == len(ds) {
		// garbage target
		g := sha256.Sum256([]byte(fmt.Sprintf("garbage-%d-%d", h, len(ds))))
		return &simDecision{bid: g[:], psid: &consensus.PartSetID{Count: 1, Hash: g[:]}}
	}
	d := ds[k]
	return &d
}

// syncByz brings the Byzantine node's own block manager up to the highest finalized block
func (r *simRun) syncByz(b int) {
	s := r.s
	bn := s.nodes[b]
	for {
		last, err := bn.tn.BM.GetLastBlock()
		if err != nil {
			return
		}
		h := last.Height() + 1
		var src *simNode
		for _, n := range s.nodes {
			if n.byz {
				continue
			}
			if lb, err := n.tn.BM.GetLastBlock(); err == nil && lb.Height() >= h {
				src = n
				break
			}
		}
		if src == nil {
			return
		}
		blk, err := src.tn.BM.GetBlockByHeight(h)
		if err != nil {
			return
		}
		var buf strings.Builder
		_ = buf
		psb := consensus.NewPartSetBuffer(consensus.ConfigBlockPartSize)
		if blk.MarshalHeader(psb) != nil || blk.MarshalBody(psb) != nil {
			return
		}
		type res struct {
			bc  module.BlockCandidate
			err error
		}
		ch := make(chan res, 1)
		_, err = bn.tn.BM.Import(psb.PartSet().NewReader(), module.ImportByForce, func(bc module.BlockCandidate, err error) { ch <- res{bc, err} })
		if err != nil {
			return
		}
		rs := <-ch
		if rs.err != nil {
			return
		}
		if err := bn.tn.BM.Finalize(rs.bc); err != nil {
			return
		}
		rs.bc.Dispose()
	}
}

// precommitsFor collects the precommit messages in the pool for (h, bid), grouped by round.
func (r *simRun) precommitsFor(h int64, bid string) map[int32][]*consensus.VoteMessage {
	s := r.s
	s.mu.Lock()
	defer s.mu.Unlock()
	out := map[int32][]*consensus.VoteMessage{}
	seen := map[string]bool{}
	add := func(v *consensus.VoteMessage) {
		if v.Height != h || v.Type != consensus.VoteTypePrecommit || v.BlockPartSetIDAndNTSVoteCount == nil || fmt.Sprintf("%x", v.BlockID) != bid {
			return
		}
		a, _ := consensus.VerifSimVoteInfo(v)
		k := fmt.Sprintf("%d/%d", v.Round, s.validatorIndex(a))
		if seen[k] {
			return
		}
		seen[k] = true
		out[v.Round] = append(out[v.Round], v)
	}
	for _, m := range s.pool {
		if m.dropped {
			continue // never left its node (crash point before the send): nobody else can know it
		}
		msg, err := consensus.UnmarshalMessage(m.pi.Uint16(), m.bs)
		if err != nil {
			continue
		}
		switch mm := msg.(type) {
		case *consensus.VoteMessage:
			add(mm)
		case *consensus.VoteListMessage:
			if mm.VoteList != nil {
				for i := 0; i < mm.VoteList.Len(); i++ {
					add(mm.VoteList.Get(i))
				}
			}
		}
	}
	return out
}

// byzPropose: Byzantine proposer b proposes at (h, round): up to two distinct valid blocks it builds
// itself (different commit-vote subsets), or re-proposes a known block with a drawn POL round.
func (r *simRun) byzPropose(b int, h int64, round int32) {
	s := r.s
	rt := r.rt
	variant := rapid.SampledFrom([]string{"fresh", "fresh2", "repropose", "garbage"}).Draw(rt, "byzProposal")
	send := func(ps consensus.PartSet, pol int32) {
		s.byzSend(b, consensus.VerifSimNewProposal(s.nodes[b].w, h, round, ps.ID(), pol, 0))
		for i := 0; i < ps.Parts(); i++ {
			s.byzSend(b, consensus.VerifSimNewBlockPart(h, uint16(i), round, ps.GetPart(i).Bytes()))
		}
	}
	switch variant {
	case "fresh", "fresh2":
		r.syncByz(b)
		last, err := s.nodes[b].tn.BM.GetLastBlock()
		if err != nil || last.Height() != h-1 {
			r.counts["byzPropose.skip"]++
			return
		}
		var cvls []module.CommitVoteSet
		if h == 1 {
			cvls = append(cvls, consensus.NewEmptyCommitVoteList())
		} else {
			pcs := r.precommitsFor(h-1, fmt.Sprintf("%x", last.ID()))
			var rounds []int32
			for rd, vs := range pcs {
				if 3*len(vs) > 2*s.n {
					rounds = append(rounds, rd)
				}
			}
			sort.Slice(rounds, func(i, j int) bool { return rounds[i] < rounds[j] })
			if len(rounds) == 0 {
				r.counts["byzPropose.skip"]++
				return
			}
			vs := pcs[rounds[0]]
			cvls = append(cvls, consensus.NewCommitVoteList(nil, vs...))
			min := 2*s.n/3 + 1
			if variant == "fresh2" && len(vs) > min {
				cvls = append(cvls, consensus.NewCommitVoteList(nil, vs[:min]...))
			}
		}
		for _, cvl := range cvls {
			ps, bc, err := s.byzBuildBlock(b, cvl)
			if err != nil {
				r.counts["byzPropose.builderr"]++
				continue
			}
			r.decisions[h] = append(r.decisions[h], simDecision{bid: bc.ID(), psid: ps.ID(), appData: 0})
			r.byzParts[fmt.Sprintf("%x", ps.ID().Hash)] = ps
			send(ps, -1)
			bc.Dispose()
			r.counts["byzPropose."+variant]++
		}
	case "repropose":
		var keys []string
		for k, ps := range r.byzParts {
			_ = ps
			keys = append(keys, k)
		}
		sort.Strings(keys)
		if len(keys) == 0 {
			r.counts["byzPropose.skip"]++
			return
		}
		ps := r.byzParts[keys[rapid.IntRange(0, len(keys)-1).Draw(rt, "which")]]
		pol := int32(rapid.IntRange(-1, int(round)).Draw(rt, "pol"))
		send(ps, pol)
		r.counts["byzPropose.repropose"]++
	case "garbage":
		psb := consensus.NewPartSetBuffer(consensus.ConfigBlockPartSize)
		_, _ = psb.Write([]byte(fmt.Sprintf("not a block %d %d", h, round)))
		send(psb.PartSet(), -1)
		r.counts["byzPropose.garbage"]++
	}
}

// learnCorrectParts: the adversary can also re-propose blocks proposed by correct nodes
func (r *simRun) learnCorrectParts() {
	// collect parts of proposals whose all parts are in the pool
	s := r.s
	s.mu.Lock()
	defer s.mu.Unlock()
	for _, m := range s.pool {
		if m.kind != "proposal" || m.bid == "" || m.dropped {
			continue
		}
		if _, ok := r.byzParts[m.bid]; ok {
			continue
		}
		msg, err := consensus.UnmarshalMessage(m.pi.Uint16(), m.bs)
		if err != nil {
			continue
		}
		pm := msg.(*consensus.ProposalMessage)
		ps := consensus.NewPartSetFromID(pm.BlockPartSetID)
		for _, m2 := range s.pool {
			if m2.kind != "part" || m2.h != m.h || m2.dropped {
				continue
			}
			msg2, err := consensus.UnmarshalMessage(m2.pi.Uint16(), m2.bs)
			if err != nil {
				continue
			}
			if p, err := consensus.NewPart(msg2.(*consensus.BlockPartMessage).BlockPart); err == nil {
				_ = ps.AddPart(p)
			}
		}
		if ps.IsComplete() {
			r.byzParts[m.bid] = ps
		}
	}
}

// simBlockResult is what a fast-sync peer hands to the engine: a block and the bytes of a commit vote list.
type simBlockResult struct {
	blk      module.BlockData
	votes    []byte
	consumed bool
	rejected bool
}

func (b *simBlockResult) Block() module.BlockData { return b.blk }
func (b *simBlockResult) Votes() []byte           { return b.votes }
func (b *simBlockResult) Consume()                { b.consumed = true }
func (b *simBlockResult) Reject()                 { b.rejected = true }

// byzBlockResult: a Byzantine validator acts as the fast-sync peer of correct node j and hands it a block
// (any block proposed so far, by anybody) with a commit vote list made of real precommits found in the
// pool: all of one round (a genuine certificate if they are more than two thirds), a subset below the
// threshold, the same with one signer repeated, precommits of several rounds mixed, or the precommits of
// ANOTHER block. Whatever the node does with it is judged by the agreement and certificate oracles.
func (r *simRun) byzBlockResult(j int) error {
	s := r.s
	rt := r.rt
	n := s.nodes[j]
	type recv interface {
		ReceiveBlockResult(br fastsync.BlockResult)
	}
	eng, ok := n.cs.(recv)
	if !ok {
		r.counts["byzBlockResult.unsupported"]++
		return nil
	}
	var keys []string
	for k := range r.byzParts {
		keys = append(keys, k)
	}
	sort.Strings(keys)
	ps := r.byzParts[keys[rapid.IntRange(0, len(keys)-1).Draw(rt, "block")]]
	blk, err := n.tn.BM.NewBlockDataFromReader(ps.NewReader())
	if err != nil {
		r.counts["byzBlockResult.undecodable"]++
		return nil
	}
	h := blk.Height()
	// prefer a receiver that is at the block's height, or (one time in three) one height below it: the
	// engine then keeps the result and processes it when it enters that height
	var at, below []int
	for _, k := range r.liveCorrect() {
		switch s.nodes[k].state().Height {
		case h:
			at = append(at, k)
		case h - 1:
			below = append(below, k)
		}
	}
	if len(below) > 0 && (len(at) == 0 || rapid.IntRange(0, 2).Draw(rt, "prefetch") == 0) {
		j = r.pickNode("behind", below)
		r.counts["byzBlockResult.forNextHeight"]++
	} else if len(at) > 0 && rapid.IntRange(0, 3).Draw(rt, "atHeight") != 0 {
		j = r.pickNode("atHeight", at)
	}
	n = s.nodes[j]
	if e2, ok := n.cs.(recv); ok {
		eng = e2
	}
	bid := fmt.Sprintf("%x", blk.ID())
	kind := rapid.SampledFrom([]string{"allOfARound", "allOfARound", "belowThreshold", "repeatedSigner", "mixedRounds", "otherBlock"}).Draw(rt, "certificate")
	src := bid
	if kind == "otherBlock" {
		var others []string
		for _, d := range r.decisions[h] {
			if o := fmt.Sprintf("%x", d.bid); o != bid {
				others = append(others, o)
			}
		}
		if len(others) == 0 {
			kind = "allOfARound"
		} else {
			sort.Strings(others)
			src = others[rapid.IntRange(0, len(others)-1).Draw(rt, "other")]
		}
	}
	pcs := r.precommitsFor(h, src)
	var rounds []int32
	for rd := range pcs {
		rounds = append(rounds, rd)
	}
	sort.Slice(rounds, func(a, b int) bool { return rounds[a] < rounds[b] })
	if len(rounds) == 0 {
		r.counts["byzBlockResult.noVotes"]++
		return nil
	}
	vs := append([]*consensus.VoteMessage{}, pcs[rounds[rapid.IntRange(0, len(rounds)-1).Draw(rt, "round")]]...)
	thr := 2*s.n/3 + 1
	switch kind {
	case "belowThreshold":
		if len(vs) >= thr {
			vs = vs[:rapid.IntRange(1, thr-1).Draw(rt, "keep")]
		}
	case "repeatedSigner":
		if len(vs) >= thr {
			vs = vs[:thr-1]
		}
		for len(vs) < thr+1 {
			vs = append(vs, vs[rapid.IntRange(0, len(vs)-1).Draw(rt, "repeat")])
		}
	case "mixedRounds":
		for _, rd := range rounds {
			for _, v := range pcs[rd] {
				dup := false
				for _, w := range vs {
					dup = dup || w == v
				}
				if !dup {
					vs = append(vs, v)
				}
			}
		}
	}
	cvl := consensus.NewCommitVoteList(nil, vs...)
	if cvl == nil {
		return nil
	}
	br := &simBlockResult{blk: blk, votes: cvl.Bytes()}
	st := n.state()
	s.logf("byzBlockResult(-> n%d at h%d r%d step%d: block h%d %s with %d precommits, %s)", j, st.Height, st.Round, st.Step, h, bid[:6], len(vs), kind)
	s.beginEvent(j)
	eng.ReceiveBlockResult(br)
	r.counts["byzBlockResult."+kind]++
	if br.consumed && h == st.Height {
		r.counts["byzBlockResult.consumedAtCurrentHeight"]++
	}
	if br.rejected {
		r.counts["byzBlockResult.rejected"]++
	}
	return s.settle()
}

// crashPick draws where the unsynced tail of a log is cut.
func (r *simRun) crashPick(wal string, lo, hi int64, bounds []int64) int64 {
	rt := r.rt
	class := rapid.SampledFrom([]string{"synced", "all", "boundary", "nearBoundary", "interior"}).Draw(rt, "cut."+wal)
	switch class {
	case "synced":
		return lo
	case "all":
		return hi
	case "boundary":
		return bounds[rapid.IntRange(0, len(bounds)-1).Draw(rt, "b")]
	case "nearBoundary":
		b := bounds[rapid.IntRange(0, len(bounds)-1).Draw(rt, "b")]
		return b + rapid.SampledFrom([]int64{1, 7, 8, 9}).Draw(rt, "d")
	default:
		if hi-lo <= 1 {
			return lo
		}
		return lo + int64(rapid.Int64Range(1, hi-lo-1).Draw(rt, "off"))
	}
}

// splitLock: scripted adversary. At the common (height, round) of the live correct nodes, let a
// drawn subset L see a polka for the proposed block (they lock and precommit it), let the others
// see +2/3 prevotes without a polka (Byzantine nil prevotes) and time out into a nil precommit,
// let a drawn subset C of L see +2/3 precommits (with Byzantine help) and commit, and push the
// rest into the next round.
type splitOpt struct {
	L, C         []int // forced sets (nil: drawn)
	noPhase2     bool
	lastDecision bool // the polka is for the block proposed last (this round's proposal), not a drawn one
}

func (r *simRun) splitLock() error { return r.splitLockOpt(nil) }

func (r *simRun) splitLockOpt(opt *splitOpt) error {
	s := r.s
	rt := r.rt
	live := r.liveCorrect()
	if len(live) < 2 {
		return nil
	}
	// bring everybody to the same height/round with the proposal delivered
	st0 := s.nodes[live[0]].state()
	for _, j := range live {
		st := s.nodes[j].state()
		if st.Height != st0.Height || st.Round != st0.Round || st.Step > consensus.VerifSimStepPrevote {
			r.counts["splitLock.skip"]++
			return nil
		}
	}
	h, round := st0.Height, st0.Round
	prop := s.proposerOf(h, round)
	if s.nodes[prop].byz {
		r.byzPropose(prop, h, round)
	} else if s.nodes[prop].alive {
		if err := s.drainBM(prop); err != nil {
			return err
		}
	}
	isProp := func(m *simMsg) bool { return (m.kind == "proposal" && m.h == h && m.r == round) || (m.kind == "part" && m.h == h) }
	for _, j := range live {
		if err := s.flushTo(j, isProp); err != nil {
			return err
		}
	}
	// nodes still waiting in propose: time out (prevote nil) with some probability
	for _, j := range live {
		if st := s.nodes[j].state(); st.Step == consensus.VerifSimStepPropose && st.Height == h && st.Round == round {
			if err := s.timeout(j); err != nil {
				return err
			}
		}
	}
	r.harvest()
	// choose L (nodes that will see the polka and lock) and C (members of L that will also commit)
	var L, C []int
	inL := map[int]bool{}
	if opt != nil && opt.L != nil {
		L, C = opt.L, opt.C
		for _, j := range L {
			inL[j] = true
		}
	} else {
		for _, j := range live {
			if rapid.IntRange(0, 9).Draw(rt, "inL") < 6 {
				L = append(L, j)
				inL[j] = true
			}
		}
		switch rapid.IntRange(0, 9).Draw(rt, "cMode") {
		case 0, 1: // nobody commits
		case 2, 3: // independent coin per member
			for _, j := range L {
				if rapid.Bool().Draw(rt, "inC") {
					C = append(C, j)
				}
			}
		default: // exactly one member commits
			if len(L) > 0 {
				C = append(C, r.pickNode("c", L))
			}
		}
	}
	ds := r.decisions[h]
	var target *simDecision
	if len(ds) > 0 {
		target = &ds[rapid.IntRange(0, len(ds)-1).Draw(rt, "target")]
		if opt != nil && opt.lastDecision {
			target = &ds[len(ds)-1]
		}
	}
	var byzBlockPV, byzNilPV, byzBlockPC []int
	for _, b := range s.byzantine() {
		if target != nil {
			if m := r.byzVote(b, h, round, consensus.VoteTypePrevote, target); m != nil {
				byzBlockPV = append(byzBlockPV, m.id)
			}
			if m := r.byzVote(b, h, round, consensus.VoteTypePrecommit, target); m != nil {
				byzBlockPC = append(byzBlockPC, m.id)
			}
		}
		if m := r.byzVote(b, h, round, consensus.VoteTypePrevote, nil); m != nil {
			byzNilPV = append(byzNilPV, m.id)
		}
	}
	isPV := func(m *simMsg) bool {
		return m.kind == "vote" && m.h == h && m.r == round && m.vt == consensus.VoteTypePrevote && !m.byz
	}
	isPC := func(m *simMsg) bool {
		return m.kind == "vote" && m.h == h && m.r == round && m.vt == consensus.VoteTypePrecommit && !m.byz
	}
	// L: all correct prevotes + byz block prevotes
	for _, j := range L {
		for _, id := range byzBlockPV {
			if err := s.deliver(id, j); err != nil {
				return err
			}
		}
		if err := s.flushTo(j, isPV); err != nil {
			return err
		}
	}
	// others: byz nil prevotes first, then correct prevotes but withhold a drawn number of them
	for _, j := range live {
		if inL[j] {
			continue
		}
		for _, id := range byzNilPV {
			if err := s.deliver(id, j); err != nil {
				return err
			}
		}
		ids := s.undelivered(j, isPV)
		// default: deliver as many correct prevotes as possible without completing a polka at j
		// (own prevote counts); sometimes a drawn number instead
		thr := 2*s.n/3 + 1
		keepBlock := thr - 2 // j's own block prevote + these stay below the threshold
		if keepBlock < 0 {
			keepBlock = 0
		}
		withhold := len(ids) - keepBlock
		if withhold < 0 {
			withhold = 0
		}
		if rapid.IntRange(0, 3).Draw(rt, "withholdMode") == 0 {
			withhold = rapid.IntRange(0, len(ids)).Draw(rt, "withhold")
		}
		for _, id := range ids[:len(ids)-withhold] {
			if err := s.deliver(id, j); err != nil {
				return err
			}
		}
		if st := s.nodes[j].state(); st.Step == consensus.VerifSimStepPrevoteWait && st.HasTimer {
			if err := s.timeout(j); err != nil {
				return err
			}
		}
	}
	// C: precommits of L + byz precommits
	for _, j := range C {
		for _, id := range byzBlockPC {
			if err := s.deliver(id, j); err != nil {
				return err
			}
		}
		if err := s.flushTo(j, isPC); err != nil {
			return err
		}
		if err := s.drainBM(j); err != nil {
			return err
		}
	}
	// the rest: all correct precommits, then time out of precommit wait
	inC := map[int]bool{}
	for _, j := range C {
		inC[j] = true
	}
	for _, j := range live {
		if inC[j] {
			continue
		}
		if rapid.IntRange(0, 9).Draw(rt, "pushNextRound") < 8 {
			if err := s.flushTo(j, isPC); err != nil {
				return err
			}
			if st := s.nodes[j].state(); st.Step == consensus.VerifSimStepPrecommitWait && st.HasTimer && st.Height == h {
				if err := s.timeout(j); err != nil {
					return err
				}
			}
		}
	}
	r.counts["splitLock.done"]++
	s.logf("splitLock(h%d r%d L=%v C=%v)", h, round, L, C)
	{
		committed, lockedBehind := 0, 0
		for _, j := range live {
			st := s.nodes[j].state()
			if st.Height > h {
				committed++
			} else if st.LockedRound >= 0 {
				lockedBehind++
			}
		}
		if committed > 0 && lockedBehind > 0 {
			r.counts["splitLock.partialCommit"]++
		}
	}
	if (opt != nil && opt.noPhase2) || rapid.IntRange(0, 3).Draw(rt, "phase2") == 0 {
		return nil
	}
	// phase 2: in the following rounds the adversary supports whatever is proposed and the
	// network delivers only current-round traffic to the nodes that have not committed
	// (so the old precommits that would let them commit the first block stay withheld).
	if rapid.IntRange(0, 2).Draw(rt, "crashBetweenPhases") == 0 {
		// crash and restart some of the nodes that have not committed
		for _, j := range live {
			if inC[j] || !s.nodes[j].alive || !rapid.Bool().Draw(rt, "crashIt") {
				continue
			}
			before := s.tornCuts
			s.crash(j, r.crashPick)
			if s.tornCuts > before {
				r.tornNodes[j] = true
			}
			if err := s.restart(j); err != nil {
				return err
			}
			r.counts["splitLock.crashBetweenPhases"]++
		}
	}
	rounds := rapid.IntRange(1, 2).Draw(rt, "phase2rounds")
	for k := 1; k <= rounds; k++ {
		if err := r.supportRound(h, round+int32(k), inC); err != nil {
			return err
		}
	}
	return nil
}

// oldPolka: scripted adversary for the "unlock only on a LATER polka" rule.
//  round r   : nobody gets a proposal; everybody prevotes nil; the nil prevotes are withheld from a
//              set of victims, who still leave the round through the nil precommits;
//  round r+1 : split-lock: the victims and one more node see the polka for the proposed block and
//              lock it, that node also commits it (Byzantine precommits), the victims time out;
//  then      : the withheld round-r nil polka is delivered to the victims (a correct node must keep
//              its lock: the polka is older than the lock);
//  round r+2…: the adversary supports whatever is proposed.
func (r *simRun) oldPolka() error {
	s := r.s
	rt := r.rt
	live := r.liveCorrect()
	thr := 2*s.n/3 + 1
	if s.f == 0 || len(live) < 3 {
		r.counts["oldPolka.skip"]++
		return nil
	}
	st0 := s.nodes[live[0]].state()
	for _, j := range live {
		st := s.nodes[j].state()
		if st.Height != st0.Height || st.Round != st0.Round || st.Step > consensus.VerifSimStepPropose {
			r.counts["oldPolka.skip"]++
			return nil
		}
	}
	h, round := st0.Height, st0.Round
	// victims: as many as still allows them to see +2/3 nil precommits from the others and the adversary
	maxV := len(live) + s.f - thr
	if maxV > len(live)-2 {
		maxV = len(live) - 2
	}
	if maxV < 1 {
		r.counts["oldPolka.skip"]++
		return nil
	}
	nV := rapid.IntRange(1, maxV).Draw(rt, "victims")
	perm := rapid.Permutation(live).Draw(rt, "roles")
	victims := append([]int{}, perm[:nV]...)
	committer := perm[nV]
	isV := map[int]bool{}
	for _, v := range victims {
		isV[v] = true
	}
	// round r: everybody times out of propose and prevotes nil
	for _, j := range live {
		if st := s.nodes[j].state(); st.Step <= consensus.VerifSimStepPropose {
			for i := 0; i < 3 && s.nodes[j].state().Step < consensus.VerifSimStepPrevote; i++ {
				if !s.nodes[j].state().HasTimer {
					break
				}
				if err := s.timeout(j); err != nil {
					return err
				}
			}
		}
	}
	isPV := func(m *simMsg) bool {
		return m.kind == "vote" && m.h == h && m.r == round && m.vt == consensus.VoteTypePrevote && !m.byz
	}
	isPC := func(m *simMsg) bool {
		return m.kind == "vote" && m.h == h && m.r == round && m.vt == consensus.VoteTypePrecommit
	}
	for _, j := range live {
		if !isV[j] {
			if err := s.flushTo(j, isPV); err != nil {
				return err
			}
			if st := s.nodes[j].state(); st.Step == consensus.VerifSimStepPrevoteWait && st.HasTimer {
				if err := s.timeout(j); err != nil {
					return err
				}
			}
		}
	}
	// the adversary prevotes nil too; together with the non-victims' prevotes this is a complete nil polka
	// that does not need the victims' own votes (a node drops the votes of rounds more than one below
	// its own, except those of its lock round, so a polka that arrives "late" is counted from scratch)
	var byzNilPV []int
	for _, b := range s.byzantine() {
		if m := r.byzVote(b, h, round, consensus.VoteTypePrevote, nil); m != nil {
			byzNilPV = append(byzNilPV, m.id)
		}
		r.byzVote(b, h, round, consensus.VoteTypePrecommit, nil)
	}
	for pass := 0; pass < 3; pass++ {
		for _, j := range live {
			if err := s.flushTo(j, isPC); err != nil {
				return err
			}
			if st := s.nodes[j].state(); st.Height == h && st.Round == round && st.Step == consensus.VerifSimStepPrecommitWait && st.HasTimer {
				if err := s.timeout(j); err != nil {
					return err
				}
			}
		}
	}
	for _, j := range live {
		if st := s.nodes[j].state(); st.Height != h || st.Round != round+1 {
			r.counts["oldPolka.stuck"]++
			s.logf("oldPolka(h%d r%d victims=%v): node %d did not reach round %d", h, round, victims, j, round+1)
			return nil
		}
	}
	// round r+1: victims and the committer lock, the committer commits
	L := append(append([]int{}, victims...), committer)
	for _, j := range perm[nV+1:] {
		if rapid.IntRange(0, 9).Draw(rt, "extraLock") < 2 {
			L = append(L, j)
		}
	}
	if err := r.splitLockOpt(&splitOpt{L: L, C: []int{committer}, noPhase2: true}); err != nil {
		return err
	}
	// the old polka arrives at the victims: either while they are still in their lock round or after
	// they moved on to a later round (their round-r vote set is gone by then and is rebuilt from the
	// late votes alone)
	late := rapid.IntRange(0, 3).Draw(rt, "oldPolkaAfterNextRound") != 0
	for _, v := range victims {
		if !s.nodes[v].alive {
			continue
		}
		if late {
			for i := 0; i < 2; i++ {
				st := s.nodes[v].state()
				if st.Height != h || st.Round > round+1 || !st.HasTimer {
					break
				}
				if err := s.timeout(v); err != nil {
					return err
				}
			}
			if st := s.nodes[v].state(); st.Height == h && st.Round > round+1 {
				r.counts["oldPolka.lateAtLaterRound"]++
			}
		}
		for _, id := range byzNilPV {
			if err := s.deliver(id, v); err != nil {
				return err
			}
		}
		if err := s.flushTo(v, isPV); err != nil {
			return err
		}
	}
	s.logf("oldPolka(h%d r%d victims=%v committer=%d)", h, round, victims, committer)
	r.counts["oldPolka.done"]++
	skip := map[int]bool{committer: true}
	rounds := rapid.IntRange(1, 4).Draw(rt, "rounds")
	if late && rounds < 3 {
		rounds = 3 // give every kind of proposer (locked, unlocked, Byzantine) a turn
	}
	for k := 1; k <= rounds; k++ {
		if err := r.supportRound(h, round+1+int32(k), skip); err != nil {
			return err
		}
	}
	return nil
}

// relock: scripted adversary for "a restart restores the LATEST lock".
//  round r   : the victim alone sees the polka for the proposed block B and locks it; nobody commits;
//  round r+1 : another block C is proposed; the victim (prevoting B) and a committer see the polka for C:
//              the victim moves its lock to C and precommits it, the committer finalizes C with Byzantine help;
//  then      : the victim crashes with everything on disk and restarts (drawn: or does not crash at all);
//  later     : the round-r prevotes for B are delivered to everybody (so that a re-proposal of B with that
//              proof-of-lock round is acceptable) and the adversary supports whatever is proposed for four rounds.
// A victim that comes back locked on B re-proposes / prevotes B and finalizes it with the unlocked node.
func (r *simRun) relock() error {
	s := r.s
	rt := r.rt
	live := r.liveCorrect()
	if s.f == 0 || len(live) < 3 {
		r.counts["relock.skip"]++
		return nil
	}
	st0 := s.nodes[live[0]].state()
	for _, j := range live {
		st := s.nodes[j].state()
		if st.Height != st0.Height || st.Round != st0.Round || st.Step > consensus.VerifSimStepPrevote {
			r.counts["relock.skip"]++
			return nil
		}
	}
	h, round := st0.Height, st0.Round
	perm := rapid.Permutation(live).Draw(rt, "relockRoles")
	victim, committer := perm[0], perm[1]
	if err := r.splitLockOpt(&splitOpt{L: []int{victim}, C: []int{}, noPhase2: true}); err != nil {
		return err
	}
	if st := s.nodes[victim].state(); st.Height != h || st.LockedRound != round {
		r.counts["relock.noFirstLock"]++
		return nil
	}
	if err := r.pushToRound(h, round+1, r.liveCorrect()); err != nil {
		return err
	}
	for _, j := range r.liveCorrect() {
		if st := s.nodes[j].state(); st.Height != h || st.Round != round+1 {
			r.counts["relock.stuck"]++
			return nil
		}
	}
	if err := r.splitLockOpt(&splitOpt{L: []int{victim, committer}, C: []int{committer}, noPhase2: true, lastDecision: true}); err != nil {
		return err
	}
	stv := s.nodes[victim].state()
	if stv.Height != h || stv.LockedRound != round+1 {
		r.counts["relock.noSecondLock"]++
		return nil
	}
	r.counts["relock.lockedTwice"]++
	if rapid.IntRange(0, 3).Draw(rt, "relockCrash") != 0 && len(r.liveCorrect()) > 1 {
		s.crash(victim, func(wal string, lo, hi int64, bounds []int64) int64 { return hi })
		if err := s.restart(victim); err != nil {
			return err
		}
		r.counts["relock.restarted"]++
	}
	oldPV := func(m *simMsg) bool {
		return m.kind == "vote" && m.h == h && m.r == round && m.vt == consensus.VoteTypePrevote
	}
	skip := map[int]bool{committer: true}
	for k := int32(2); k <= 5; k++ {
		for _, j := range r.liveCorrect() {
			if skip[j] || s.nodes[j].state().Height != h {
				continue
			}
			// everything may be delivered again at any time: the round-r prevotes reach everybody once more
			s.mu.Lock()
			for key := range s.deliv {
				if key[1] == j && oldPV(s.pool[key[0]]) {
					delete(s.deliv, key)
				}
			}
			s.mu.Unlock()
			if err := s.flushTo(j, oldPV); err != nil {
				return err
			}
		}
		if err := r.supportRound(h, round+k, skip); err != nil {
			return err
		}
	}
	s.logf("relock(h%d r%d victim=%d committer=%d)", h, round, victim, committer)
	return nil
}

// supportRound: at (h, round) deliver the round's proposal to the live correct nodes still at
// height h, let the Byzantine validators prevote and precommit every block proposed for this
// round, and deliver only this round's messages.
func (r *simRun) supportRound(h int64, round int32, skip map[int]bool) error {
	s := r.s
	var R []int
	for _, j := range r.liveCorrect() {
		if skip[j] {
			continue
		}
		if st := s.nodes[j].state(); st.Height == h {
			R = append(R, j)
		}
	}
	if len(R) == 0 {
		return nil
	}
	// nodes behind this round (e.g. restarted ones): give them the correct nodes' votes of their
	// own round again and push them by timeouts where a timer is pending
	// (several passes: a node may need the votes another node casts only after its own timeout; the
	// Byzantine validators add nil precommits for the stalled round - once per round - so that +2/3
	// precommits exist and everybody can leave it)
	if err := r.pushToRound(h, round, R); err != nil {
		return err
	}
	return r.supportRoundAt(h, round, R)
}

// pushToRound brings the nodes of R that are still in an earlier round of height h to `round`.
func (r *simRun) pushToRound(h int64, round int32, R []int) error {
	s := r.s
	helped := map[int32]bool{}
	for pass := 0; pass < 3; pass++ {
		for _, j := range R {
			for i := 0; i < 6; i++ {
				st := s.nodes[j].state()
				if st.Height != h || st.Round >= round {
					break
				}
				if !st.HasTimer {
					cur := st.Round
					if pass > 0 && !helped[cur] {
						helped[cur] = true
						for _, b := range s.byzantine() {
							r.byzVote(b, h, cur, consensus.VoteTypePrecommit, nil)
						}
					}
					if err := s.flushTo(j, func(m *simMsg) bool {
						return m.kind == "vote" && (!m.byz || pass > 0) && m.h == h && m.r == cur
					}); err != nil {
						return err
					}
					if st2 := s.nodes[j].state(); !st2.HasTimer {
						break
					}
				}
				if err := s.timeout(j); err != nil {
					return err
				}
			}
		}
	}
	return nil
}

func (r *simRun) supportRoundAt(h int64, round int32, R []int) error {
	s := r.s
	prop := s.proposerOf(h, round)
	if s.nodes[prop].byz {
		r.byzPropose(prop, h, round)
	} else if s.nodes[prop].alive {
		if err := s.drainBM(prop); err != nil {
			return err
		}
	}
	inRound := func(m *simMsg) bool {
		switch m.kind {
		case "proposal", "vote", "votelist":
			return m.h == h && m.r == round
		case "part":
			return m.h == h
		}
		return false
	}
	for pass := 0; pass < 3; pass++ {
		for _, j := range R {
			if err := s.flushTo(j, inRound); err != nil {
				return err
			}
		}
		for _, j := range R {
			if st := s.nodes[j].state(); st.Height == h && st.Round == round && st.Step == consensus.VerifSimStepPropose && pass == 0 {
				// no proposal arrived: time out of propose
				if len(s.undelivered(j, inRound)) == 0 {
					if err := s.timeout(j); err != nil {
						return err
					}
				}
			}
		}
		r.harvest()
		// the adversary votes for every block that received a correct prevote in this round, and for nothing else
		s.mu.Lock()
		targets := map[string]bool{}
		for _, m := range s.pool {
			if m.kind == "vote" && !m.byz && m.h == h && m.r == round && m.bid != "" {
				targets[m.bid] = true
			}
		}
		s.mu.Unlock()
		var tk []string
		for k := range targets {
			tk = append(tk, k)
		}
		sort.Strings(tk)
		if pass == 0 {
			for _, b := range s.byzantine() {
				for _, k := range tk {
					for i := range r.decisions[h] {
						d := r.decisions[h][i]
						if fmt.Sprintf("%x", d.bid) == k {
							r.byzVote(b, h, round, consensus.VoteTypePrevote, &d)
							r.byzVote(b, h, round, consensus.VoteTypePrecommit, &d)
						}
					}
				}
			}
		}
	}
	s.logf("supportRound(h%d r%d R=%v)", h, round, R)
	r.counts["supportRound"]++
	return nil
}

// syncProgress: a synchronous period until every live correct node finalized `heights` more blocks
func (r *simRun) syncProgress(heights int) error {
	s := r.s
	target := int64(0)
	for _, j := range r.liveCorrect() {
		if st := s.nodes[j].state(); st.Height+int64(heights) > target {
			target = st.Height + int64(heights)
		}
	}
	for iter := 0; iter < 30; iter++ {
		done := true
		for _, j := range r.liveCorrect() {
			if s.nodes[j].state().Height < target {
				done = false
			}
		}
		if done {
			break
		}
		if err := s.drainAllBM(); err != nil {
			return err
		}
		for _, j := range r.liveCorrect() {
			if err := s.flushTo(j, nil); err != nil {
				return err
			}
		}
		for _, j := range r.liveCorrect() {
			st := s.nodes[j].state()
			if st.HasTimer && st.Height < target && len(s.undelivered(j, nil)) == 0 && len(s.parked(j)) == 0 {
				if err := s.timeout(j); err != nil {
					return err
				}
			}
		}
	}
	s.logf("syncProgress(to h%d)", target)
	return nil
}

func (r *simRun) step() (bool, error) {
	s := r.s
	rt := r.rt
	r.harvest()
	live := r.liveCorrect()
	dead := r.deadCorrect()
	type act struct {
		name string
		w    int
	}
	var acts []act
	var timerNodes, parkedNodes []int
	for _, j := range live {
		if s.nodes[j].state().HasTimer {
			timerNodes = append(timerNodes, j)
		}
		if len(s.parked(j)) > 0 {
			parkedNodes = append(parkedNodes, j)
		}
	}
	// fresh (message, node) pairs
	type pair struct{ m, j int }
	var fresh []pair
	for _, j := range live {
		for _, id := range s.undelivered(j, nil) {
			fresh = append(fresh, pair{id, j})
		}
	}
	if len(fresh) > 0 {
		acts = append(acts, act{"deliver", 8}, act{"flushNode", 3}, act{"flushKind", 3})
	}
	if s.poolLen() > 0 && len(live) > 0 {
		acts = append(acts, act{"dup", 1})
	}
	if len(live) > 0 {
		acts = append(acts, act{"flushAll", 2})
	}
	if len(timerNodes) > 0 {
		acts = append(acts, act{"timeout", 4})
	}
	if len(parkedNodes) > 0 {
		acts = append(acts, act{"bmDone", 5})
	}
	if s.f > 0 && len(live) > 0 {
		acts = append(acts, act{"byzVotes", 3}, act{"byzPropose", 2})
	}
	if len(live) >= 2 {
		acts = append(acts, act{"splitLock", 2})
	}
	if s.f > 0 && len(live) > 0 && len(r.byzParts) > 0 {
		w := 4
		if r.mode == "C02" {
			w = 1 // keep the crash/restart density of the C02 walk
		}
		acts = append(acts, act{"byzBlockResult", w})
	}
	crashW := 1
	if r.mode == "C02" {
		crashW = 6
	}
	// keep at least one correct node alive; total faulty (byz + down) is not bounded by the property
	if len(live) > 1 {
		acts = append(acts, act{"crash", crashW})
	}
	if len(dead) > 0 {
		acts = append(acts, act{"restart", 4})
	}
	if len(live)+len(dead) > 0 {
		w := 2
		if r.mode == "C02" {
			w = 1
		}
		acts = append(acts, act{"submitTx", w})
	}
	if len(acts) == 0 {
		return false, nil
	}
	var names []string
	for _, a := range acts {
		for i := 0; i < a.w; i++ {
			names = append(names, a.name)
		}
	}
	name := rapid.SampledFrom(names).Draw(rt, "action")
	r.counts[name]++
	// a crash point inside the handler that processes this very event
	crashAfter := func(j int, err error) (bool, error) {
		if err != nil {
			return true, err
		}
		p := 3
		if r.mode == "C02" {
			p = 22
		}
		if len(r.liveCorrect()) > 1 && rapid.IntRange(0, 99).Draw(rt, "crashInHandler") < p {
			before := s.tornCuts
			if s.crashInside(j, func(sends int) int { return rapid.IntRange(0, sends-1).Draw(rt, "afterSend") }, r.crashPick) {
				r.counts["crashInside"]++
				if s.tornCuts > before {
					r.tornNodes[j] = true
				}
			}
		}
		return true, nil
	}
	switch name {
	case "deliver":
		p := fresh[rapid.IntRange(0, len(fresh)-1).Draw(rt, "pair")]
		return crashAfter(p.j, s.deliver(p.m, p.j))
	case "dup":
		m := rapid.IntRange(0, s.poolLen()-1).Draw(rt, "msg")
		return true, s.deliver(m, r.pickNode("to", live))
	case "flushNode":
		return true, s.flushTo(r.pickNode("to", live), nil)
	case "flushKind":
		j := r.pickNode("to", live)
		st := s.nodes[j].state()
		kind := rapid.SampledFrom([]string{"proposal", "prevote", "precommit"}).Draw(rt, "kind")
		dr := int32(rapid.IntRange(-1, 0).Draw(rt, "dround"))
		limit := rapid.IntRange(1, s.n).Draw(rt, "limit")
		cnt := 0
		return true, s.flushTo(j, func(m *simMsg) bool {
			if cnt >= limit && kind != "proposal" {
				return false
			}
			ok := false
			switch kind {
			case "proposal":
				ok = (m.kind == "proposal" && m.h == st.Height) || (m.kind == "part" && m.h == st.Height) || (m.kind == "votelist" && m.h == st.Height)
			case "prevote":
				ok = m.kind == "vote" && m.vt == consensus.VoteTypePrevote && m.h == st.Height && m.r == st.Round+dr
			case "precommit":
				ok = m.kind == "vote" && m.vt == consensus.VoteTypePrecommit && m.h == st.Height && m.r == st.Round+dr
			}
			if ok {
				cnt++
			}
			return ok
		})
	case "flushAll":
		for _, j := range live {
			if err := s.flushTo(j, nil); err != nil {
				return true, err
			}
		}
		return true, nil
	case "timeout":
		j := r.pickNode("node", timerNodes)
		return crashAfter(j, s.timeout(j))
	case "bmDone":
		j := r.pickNode("node", parkedNodes)
		k := rapid.IntRange(0, len(s.parked(j))-1).Draw(rt, "k")
		return crashAfter(j, s.release(j, k))
	case "byzVotes":
		b := r.pickNode("byz", s.byzantine())
		ref := s.nodes[r.pickNode("ref", live)].state()
		h := ref.Height
		round := ref.Round + int32(rapid.IntRange(-1, 1).Draw(rt, "dround"))
		if round < 0 {
			round = 0
		}
		cnt := rapid.IntRange(1, 3).Draw(rt, "count")
		for i := 0; i < cnt; i++ {
			vt := rapid.SampledFrom([]consensus.VoteType{consensus.VoteTypePrevote, consensus.VoteTypePrecommit}).Draw(rt, "vt")
			r.byzVote(b, h, round, vt, r.drawDecision(h, "decision"))
		}
		return true, nil
	case "byzPropose":
		r.learnCorrectParts()
		ref := s.nodes[r.pickNode("ref", live)].state()
		round := ref.Round + int32(rapid.IntRange(0, 1).Draw(rt, "dround"))
		// find a round >= round at which a byzantine node is the proposer
		for k := int32(0); k < int32(s.n); k++ {
			p := s.proposerOf(ref.Height, round+k)
			if s.nodes[p].byz {
				r.byzPropose(p, ref.Height, round+k)
				break
			}
		}
		return true, nil
	case "splitLock":
		return true, r.splitLock()
	case "byzBlockResult":
		r.learnCorrectParts()
		return true, r.byzBlockResult(r.pickNode("to", live))
	case "crash":
		j := r.pickNode("node", live)
		before := s.tornCuts
		inside := false
		if rapid.Bool().Draw(rt, "insideHandler") {
			inside = s.crashInside(j, func(sends int) int { return rapid.IntRange(0, sends-1).Draw(rt, "afterSend") }, r.crashPick)
		}
		if !inside {
			s.crash(j, r.crashPick)
		}
		if s.tornCuts > before {
			r.tornNodes[j] = true
		}
		return true, nil
	case "restart":
		j := r.pickNode("node", dead)
		if rapid.IntRange(0, 2).Draw(rt, "poolChangedWhileDown") == 0 {
			if err := s.submitTx(j); err != nil {
				return true, err
			}
			r.counts["submitTxWhileDown"]++
		}
		return true, s.restart(j)
	case "submitTx":
		return true, s.submitTx(r.pickNode("node", append(append([]int{}, live...), dead...)))
	}
	return true, nil
}

var simDebugHook func(*sim)

func simRunCase(rt *rapid.T, mode string, profile string, rec *ev.Rec) {
	sizes := []int{3, 4, 4, 4, 4, 5, 6, 7}
	if profile == "scripted" {
		sizes = []int{4, 4, 4, 5, 7}
	}
	n := rapid.SampledFrom(sizes).Draw(rt, "n")
	fmax := (n - 1) / 3
	f := rapid.IntRange(0, fmax).Draw(rt, "f")
	if fmax > 0 && (profile == "scripted" || rapid.IntRange(0, 3).Draw(rt, "fbias") > 0) {
		f = fmax
	}
	byz := map[int]bool{}
	for len(byz) < f {
		byz[rapid.IntRange(0, n-1).Draw(rt, "byzIdx")] = true
	}
	maxSteps := rapid.IntRange(10, ev.Pick(120, 300)).Draw(rt, "steps")
	if profile == "scripted" {
		maxSteps = rapid.IntRange(0, 25).Draw(rt, "steps")
	}
	s, err := newSim(n, byz, 1000)
	defer s.close()
	if err != nil {
		ev.Inconclusive("simulator setup failed: %v", err)
	}
	if err := s.start(); err != nil {
		ev.Inconclusive("simulator start failed: %v", err)
	}
	r := &simRun{s: s, rt: rt, mode: mode, counts: map[string]int{}, decisions: map[int64][]simDecision{},
		tornNodes: map[int]bool{}, byzHeight: map[int]int64{}, byzParts: map[string]consensus.PartSet{}}
	var byzList []int
	for b := range byz {
		byzList = append(byzList, b)
	}
	sort.Ints(byzList)
	head := fmt.Sprintf("n=%d byz=%v", n, byzList)
	steps := 0
	var runErr error
	// opening: optionally some synchronous heights, then optionally the scripted adversary first
	openings := []string{"none", "script", "script", "sync1+script", "sync1", "oldPolka"}
	if profile == "scripted" {
		openings = []string{"script", "script", "sync1+script", "oldPolka", "oldPolka", "sync1+oldPolka", "relock", "relock", "sync1+relock"}
	}
	opening := rapid.SampledFrom(openings).Draw(rt, "opening")
	if strings.HasPrefix(opening, "sync1") {
		runErr = r.syncProgress(1)
	}
	if runErr == nil && strings.HasSuffix(opening, "script") {
		runErr = r.splitLock()
	}
	if runErr == nil && strings.HasSuffix(opening, "oldPolka") {
		runErr = r.oldPolka()
	}
	if runErr == nil && strings.HasSuffix(opening, "relock") {
		runErr = r.relock()
	}
	// after the opening script: the adversary also acts as fast-sync peer of the nodes that lag behind
	if runErr == nil && s.f > 0 && opening != "none" && mode == "C01" {
		for k, n := 0, rapid.IntRange(0, 2).Draw(rt, "blockResultsAfterScript"); k < n && runErr == nil; k++ {
			r.learnCorrectParts()
			if live := r.liveCorrect(); len(live) > 0 && len(r.byzParts) > 0 {
				runErr = r.byzBlockResult(r.pickNode("to", live))
			}
		}
	}
	for runErr == nil && steps < maxSteps {
		ev.Journal(head + "\n" + strings.Join(s.history, "\n"))
		more, err := r.step()
		steps++
		if err != nil {
			runErr = err
			break
		}
		if !more {
			break
		}
		s.mu.Lock()
		nv := len(s.violations)
		s.mu.Unlock()
		if nv > 0 {
			break
		}
		// stop after three finalized heights
		top := int64(0)
		for _, fn := range s.finals {
			if fn.height > top {
				top = fn.height
			}
		}
		if top >= 3 {
			break
		}
	}
	r.harvest()
	if simDebugHook != nil {
		simDebugHook(s)
	}
	// evidence
	var cs []string
	for k, v := range r.counts {
		cs = append(cs, fmt.Sprintf("%s:%d", k, v))
	}
	sort.Strings(cs)
	fin := map[int64]string{}
	for _, fn := range s.finals {
		fin[fn.height] = fn.id[:6]
	}
	var fs []string
	for h, id := range fin {
		fs = append(fs, fmt.Sprintf("h%d=%s", h, id))
	}
	sort.Strings(fs)
	hh := sha256.Sum256([]byte(strings.Join(s.history, "\n")))
	crashes := 0
	for _, nd := range s.nodes {
		crashes += nd.crashes
	}
	headN := len(s.history)
	if headN > 14 {
		headN = 14
	}
	desc := fmt.Sprintf("%s steps=%d actions{%s} maxRound=%d finalized[%s] crashes=%d tornCuts=%d votesAfterTornRestart=%d byzMsgsDelivered=%d history#%x first: %s",
		head, steps, strings.Join(cs, ","), s.maxRound, strings.Join(fs, ","), crashes, s.tornCuts, s.restartsAfterTorn, s.equivDelivered, hh[:6],
		strings.Join(s.history[:headN], "; "))
	nontrivial := s.maxRound >= 1 || s.equivDelivered >= 2
	if mode == "C02" {
		nontrivial = s.restartsAfterTorn >= 1 || (crashes > 0 && s.maxRound >= 1)
	}
	labels := []string{fmt.Sprintf("n=%d,f=%d", n, f), fmt.Sprintf("finalizedHeights=%d", len(fin)), "profile=" + profile}
	if r.counts["splitLock.partialCommit"] > 0 {
		labels = append(labels, "script:someCommittedWhileOthersLockedOn")
	}
	if s.maxRound >= 1 {
		labels = append(labels, "round>=1")
	}
	if s.maxRound >= 2 {
		labels = append(labels, "round>=2")
	}
	if crashes > 0 {
		labels = append(labels, "crash")
	}
	if s.tornCuts > 0 {
		labels = append(labels, "tornCut")
	}
	if s.insideCrashes > 0 {
		labels = append(labels, "crashInsideHandler")
	}
	if s.walOnlyKept > 0 {
		labels = append(labels, "unsentVoteKeptInWAL")
	}
	if s.restartsAfterTorn > 0 {
		labels = append(labels, "voteAfterTornRestart")
	}
	if r.counts["splitLock.done"] > 0 {
		labels = append(labels, "splitLock")
	}
	if r.counts["oldPolka.done"] > 0 {
		labels = append(labels, "oldPolkaScript")
	}
	if r.counts["oldPolka.stuck"] > 0 {
		labels = append(labels, "oldPolkaStuck")
	}
	if r.counts["relock.lockedTwice"] > 0 {
		labels = append(labels, "relockScript:lockedTwiceAtOneHeight")
	}
	if r.counts["relock.restarted"] > 0 {
		labels = append(labels, "relockScript:restartedAfterSecondLock")
	}
	if r.counts["byzBlockResult.rejected"] > 0 {
		labels = append(labels, "fastSyncBlockRejected")
	}
	if r.counts["byzBlockResult.forNextHeight"] > 0 {
		labels = append(labels, "fastSyncBlockForNextHeight")
	}
	if r.counts["byzBlockResult.consumedAtCurrentHeight"] > 0 {
		labels = append(labels, "fastSyncBlockAccepted")
	}
	if r.counts["submitTxWhileDown"] > 0 {
		labels = append(labels, "poolChangedWhileNodeDown")
	}
	if r.counts["submitTx"]+r.counts["submitTxWhileDown"] > 0 {
		labels = append(labels, "transactionsSubmitted")
	}
	if r.counts["oldPolka.lateAtLaterRound"] > 0 {
		labels = append(labels, "oldPolkaAfterVictimLeftLockRound")
	}
	if len(s.dsr) > 0 {
		labels = append(labels, "doubleSignReported")
	}
	if s.inconcl != "" || runErr != nil {
		rec.Case(desc, false, append(labels, "inconclusiveSchedule")...)
		return // bounded wait expired: exploration only, never a verdict
	}
	rec.Case(desc, nontrivial, labels...)
	s.mu.Lock()
	viol := append([]string{}, s.violations...)
	s.mu.Unlock()
	var mine []string
	for _, v := range viol {
		if strings.HasPrefix(v, mode+":") || strings.HasPrefix(v, "HARNESS:") || (mode == "C02" && strings.HasPrefix(v, "C06:")) {
			mine = append(mine, v)
		}
	}
	if len(mine) > 0 {
		rt.Fatalf("%s violated: %s\ncase: %s\nhistory:\n%s", mode, strings.Join(mine, "\n"), head, strings.Join(s.history, "\n"))
	}
}

func TestC01(t *testing.T) {
	rec := ev.New("C01", "rapid-drawn schedules over n in {3..7} real consensus engines (real block managers, real file WAL), f<n/3 Byzantine keys: "+
		"deliveries (fresh, duplicate, filtered by kind/round), timeouts through the real timer closures, block-manager completions, Byzantine votes/"+
		"proposals (two valid blocks, re-proposals with POL round, garbage), scripted split-lock adversary, crashes with torn WAL tails and restarts; "+
		"non-trivial = some correct node reached round >= 1 or Byzantine messages were delivered to correct nodes at least twice; distinct by hash of the full event history")
	defer rec.Flush(t)
	rec.Assume("database is durable across an engine crash; the block manager object survives the engine restart")
	rec.Assume("liveness is not examined; bounded waits that expire make the case exploration-only")
	t.Run("walk", func(t *testing.T) {
		ev.Check(t, 40, 160, func(rt *rapid.T) { simRunCase(rt, "C01", "walk", rec) })
	})
	t.Run("scripted", func(t *testing.T) {
		ev.Check(t, 100, 400, func(rt *rapid.T) { simRunCase(rt, "C01", "scripted", rec) })
	})
}

func TestC02(t *testing.T) {
	rec := ev.New("C02", "same simulator as C01 with crash weight x4: crash = Term + truncate every WAL tail file to a drawn cut in [durable size, size] "+
		"(synced / all / frame boundary / boundary+{1,7,8,9} / interior), restart on the same logs; oracles: no correct key ever signs two different votes "+
		"(or proposals) for one (type,height,round) anywhere in the pool, every vote/proposal is in the durable part of the round WAL at the moment it is "+
		"handed to the network, no double-sign evidence against a correct validator; non-trivial = a vote was cast after a restart from a torn cut, or a crash "+
		"happened in a run that reached round >= 1; distinct by hash of the full event history")
	defer rec.Flush(t)
	rec.Assume("prefix-persistence of appended WAL bytes (ordered file system); database durable")
	rec.Assume("the logical clock advances on every vote, as wall-clock time does: a re-signed vote differs from the first one")
	t.Run("walk", func(t *testing.T) {
		ev.Check(t, 80, 240, func(rt *rapid.T) { simRunCase(rt, "C02", "walk", rec) })
	})
	t.Run("scripted", func(t *testing.T) {
		ev.Check(t, 30, 120, func(rt *rapid.T) { simRunCase(rt, "C02", "scripted", rec) })
	})
}
